//! Shared helpers for the spawner checks (C35, C36): a recording wrapper around any `Spawner`
//! (so the REAL `spawner_task` can be observed from outside) and the pacing oracle.
use std::sync::{Arc, Mutex};

use ntpd::verif_hook::spawn_hook as sh;
use tokio::sync::mpsc;
use tokio::time::Instant;

use crate::w_dns;

#[derive(Debug, Clone, Copy, PartialEq, Eq)]
pub enum Kind {
    Registered,
    Removed,
}

/// What the wrapped spawner saw, with the (virtual) time in microseconds since `t0`.
#[derive(Debug, Clone, PartialEq, Eq)]
pub enum LogEv {
    TryStart { t: u64, dns: usize },
    TryEnd { t: u64, dns: usize, complete: bool, err: bool },
    Handled { t: u64, kind: Kind, complete: bool },
}

pub type Log = Arc<Mutex<Vec<LogEv>>>;

/// Recording wrapper: delegates everything to `inner`, adds no behaviour.
pub struct Rec<S> {
    pub inner: S,
    pub log: Log,
    pub t0: Instant,
    /// scripted host whose resolver-call counter is sampled at try_spawn start/end
    pub host: Option<&'static str>,
}

impl<S> Rec<S> {
    pub fn new(inner: S, t0: Instant, host: Option<&'static str>) -> (Self, Log) {
        let log: Log = Arc::new(Mutex::new(Vec::new()));
        (Rec { inner, log: log.clone(), t0, host }, log)
    }
    fn now(&self) -> u64 {
        Instant::now().duration_since(self.t0).as_micros() as u64
    }
    fn dns(&self) -> usize {
        self.host.map(w_dns::calls).unwrap_or(0)
    }
    fn push(&self, e: LogEv) {
        self.log.lock().unwrap_or_else(|e| e.into_inner()).push(e);
    }
}

impl<S: sh::Spawner + Send> sh::Spawner for Rec<S> {
    type Error = S::Error;

    async fn try_spawn(&mut self, action_tx: &mpsc::Sender<sh::SpawnEvent>) -> Result<(), S::Error> {
        self.push(LogEv::TryStart { t: self.now(), dns: self.dns() });
        let r = self.inner.try_spawn(action_tx).await;
        self.push(LogEv::TryEnd { t: self.now(), dns: self.dns(), complete: self.inner.is_complete(), err: r.is_err() });
        r
    }

    fn is_complete(&self) -> bool {
        self.inner.is_complete()
    }

    async fn handle_source_removed(&mut self, event: sh::SourceRemovedEvent) -> Result<(), S::Error> {
        let r = self.inner.handle_source_removed(event).await;
        self.push(LogEv::Handled { t: self.now(), kind: Kind::Removed, complete: self.inner.is_complete() });
        r
    }

    async fn handle_registered(&mut self, event: sh::SourceCreateParameters) -> Result<(), S::Error> {
        let r = self.inner.handle_registered(event).await;
        self.push(LogEv::Handled { t: self.now(), kind: Kind::Registered, complete: self.inner.is_complete() });
        r
    }

    fn get_id(&self) -> sh::SpawnerId {
        self.inner.get_id()
    }

    fn get_addr_description(&self) -> String {
        self.inner.get_addr_description()
    }

    fn get_description(&self) -> &'static str {
        self.inner.get_description()
    }
}

pub const PERIOD_US: u64 = 1_000_000;
/// timers of the paused tokio clock fire on the next millisecond tick; the generated schedules add
/// sub-millisecond clock jitter on top
pub const TOL_US: u64 = 5_000;

#[derive(Debug, Default)]
pub struct PacingStats {
    pub attempts: usize,
    /// attempts that started exactly one period (within TOL) after the previous one ended
    pub paced_retries: usize,
    /// attempts that started right after an event made the spawner incomplete (ticket was available)
    pub immediate: usize,
    /// gaps that were only legal because of the 1 s rule (an event asked for a spawn earlier)
    pub delayed_by_ticket: usize,
}

/// Pacing oracle over the recorded log.
///
/// * SAFETY: consecutive spawn attempts start at least one period apart.
/// * LIVENESS: whenever the spawner is incomplete (initially, after an attempt, after a handled
///   event) the next attempt starts no later than max(previous attempt end + period, that moment)
///   (+TOL), as long as the task is still being run (`alive_until`: when the notification
///   channel was closed; `None` = the task ended by itself with an error).
///
/// `initially_complete`: `is_complete()` before the task was started.
pub fn pacing_oracle(
    log: &[LogEv],
    initially_complete: bool,
    alive_until: Option<u64>,
) -> Result<PacingStats, (&'static str, String)> {
    let mut st = PacingStats::default();
    let mut last_start: Option<u64> = None;
    let mut last_end: Option<u64> = None;
    // earliest moment since the last attempt at which the spawner was seen incomplete
    let mut incomplete_since: Option<u64> = if initially_complete { None } else { Some(0) };
    let mut in_attempt = false;
    let mut ended_with_error = false;

    let deadline = |last_end: Option<u64>, since: u64| -> u64 {
        match last_end {
            Some(e) => since.max(e + PERIOD_US),
            None => since,
        }
    };

    for ev in log {
        match *ev {
            LogEv::TryStart { t, .. } => {
                if in_attempt {
                    return Err(("harness/nested-attempt", "try_spawn started while another one was running".into()));
                }
                in_attempt = true;
                st.attempts += 1;
                if let Some(s) = last_start {
                    if t < s + PERIOD_US {
                        return Err((
                            "pacing/two-attempts-within-one-period",
                            format!("spawn attempts started at {s} us and {t} us (less than 1 s apart)"),
                        ));
                    }
                }
                if let Some(since) = incomplete_since {
                    let d = deadline(last_end, since);
                    if t > d + TOL_US {
                        return Err((
                            "pacing/attempt-late",
                            format!(
                                "spawner incomplete since {since} us, previous attempt ended at {last_end:?} us, \
                                 next attempt only started at {t} us (deadline {d} us)"
                            ),
                        ));
                    }
                    if let Some(e) = last_end {
                        if since <= e + PERIOD_US {
                            if since > e {
                                st.delayed_by_ticket += 1;
                            } else {
                                st.paced_retries += 1;
                            }
                        } else {
                            st.immediate += 1;
                        }
                    }
                }
                last_start = Some(t);
            }
            LogEv::TryEnd { t, complete, err, .. } => {
                in_attempt = false;
                last_end = Some(t);
                incomplete_since = if complete { None } else { Some(t) };
                ended_with_error = err;
            }
            LogEv::Handled { t, complete, .. } => {
                if complete {
                    // became complete without an attempt: no obligation until it is incomplete again
                    incomplete_since = None;
                } else if incomplete_since.is_none() {
                    incomplete_since = Some(t);
                }
            }
        }
    }

    if in_attempt {
        return Err(("harness/unfinished-attempt", "log ends inside try_spawn".into()));
    }
    if !ended_with_error {
        if let (Some(since), Some(alive)) = (incomplete_since, alive_until) {
            let d = deadline(last_end, since);
            if alive > d + TOL_US {
                return Err((
                    "pacing/attempts-stopped-while-incomplete",
                    format!(
                        "spawner incomplete since {since} us, last attempt ended at {last_end:?} us, no further attempt \
                         although the task was run until {alive} us (deadline {d} us)"
                    ),
                ));
            }
        }
    }
    Ok(st)
}
