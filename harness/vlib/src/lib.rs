//! Verification library for ntpd-rs: engine, generators, reference models, one module per property.
#![allow(clippy::all)]
pub mod driver;
pub mod engine;
pub mod gens;
pub mod props;
pub mod refwire;
pub mod w_algo;
pub mod w_dns;
pub mod w_kalman;
pub mod w_keys;
pub mod w_ntske;
pub mod w_ntsked;
pub mod w_ptp;
pub mod w_server;
pub mod w_source;
pub mod w_spawn;
pub mod w_srv;
pub mod rt;

pub use engine::{Entry, entry};

pub fn registry() -> Vec<Entry> {
    props::registry()
}
