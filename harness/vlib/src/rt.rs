//! tokio helpers: single-threaded runtimes owned by a check
use std::future::Future;

/// current-thread runtime with the tokio clock paused (time only moves through
/// `tokio::time::advance`/auto-advance), IO enabled
pub fn run_paused<F: Future>(f: F) -> F::Output {
    let rt = tokio::runtime::Builder::new_current_thread()
        .enable_all()
        .start_paused(true)
        .build()
        .expect("runtime");
    rt.block_on(f)
}

/// current-thread runtime with the real clock
pub fn run_real<F: Future>(f: F) -> F::Output {
    let rt = tokio::runtime::Builder::new_current_thread()
        .enable_all()
        .build()
        .expect("runtime");
    rt.block_on(f)
}
