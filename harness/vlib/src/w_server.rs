//! Server world: generated server configuration / synchronisation state / key
//! history and request datagrams, executed through `Server::handle` exactly as
//! the daemon calls it (request-sized buffer) and, for the differential
//! checks, with a large buffer on a twin server.

use std::net::{IpAddr, Ipv4Addr, Ipv6Addr};
use std::sync::{Arc, RwLock};
use std::time::Duration;

use ntp_proto::verif_hook as nh;
use ntp_proto::{
    FilterAction, FilterList, IpSubnet, KeySet, KeySetProvider, NtpClock, NtpDuration,
    NtpLeapIndicator, NtpServerInfo, NtpTimestamp, NtpVersion, Server, ServerAction, ServerConfig,
    ServerReason, ServerResponse, ServerStatHandler,
};
use proptest::prelude::*;
use serde::{Deserialize, Serialize};

use crate::refwire::*;

// ---------------------------------------------------------------------------
// specs

#[derive(Debug, Clone, Serialize, Deserialize, PartialEq)]
pub struct ServerCase {
    pub cfg: CfgSpec,
    pub state: StateSpec,
    pub history: u8,
    pub initial_rotations: u8,
    pub key_seed: u64,
    /// key ids of the server's key set start here (a stored key file may carry any offset)
    #[serde(default)]
    pub id_offset: u32,
    pub reqs: Vec<ReqItem>,
}

#[derive(Debug, Clone, Serialize, Deserialize, PartialEq)]
pub struct CfgSpec {
    pub deny: Vec<String>,
    pub deny_is_deny: bool,
    pub allow: Vec<String>,
    pub allow_is_deny: bool,
    /// None, Some(false)=ignore, Some(true)=deny
    pub require_nts: Option<bool>,
    /// bit0 v3, bit1 v4, bit2 v5
    pub accepted: u8,
}

#[derive(Debug, Clone, Serialize, Deserialize, PartialEq)]
pub struct StateSpec {
    pub stratum: u8,
    /// 0 nowarning 1 leap61 2 leap59 3 unknown 4 unsynchronized
    pub leap: u8,
    pub refid: u32,
    /// raw NtpDuration units (>= 0)
    pub root_delay: i64,
    pub var_base: f64,
    pub var_linear: f64,
    pub var_quadratic: f64,
    pub var_cubic: f64,
    pub var_base_time: u64,
    pub precision_exp: i8,
    pub bloom_ids: u8,
}

#[derive(Debug, Clone, Serialize, Deserialize, PartialEq)]
pub enum AddrSpec {
    V4(u32),
    V6(u64, u64),
}

impl AddrSpec {
    pub fn ip(&self) -> IpAddr {
        match *self {
            AddrSpec::V4(v) => IpAddr::V4(Ipv4Addr::from(v)),
            AddrSpec::V6(h, l) => IpAddr::V6(Ipv6Addr::from(((h as u128) << 64) | l as u128)),
        }
    }
}

#[derive(Debug, Clone, Serialize, Deserialize, PartialEq)]
pub struct ReqItem {
    pub addr: AddrSpec,
    pub recv_ts: u64,
    pub now_ts: u64,
    pub rotate_before: bool,
    pub req: ReqSpec,
}

#[derive(Debug, Clone, Serialize, Deserialize, PartialEq)]
pub enum ReqSpec {
    Built(PacketSpec),
    Raw(Vec<u8>),
    Mutated {
        base: PacketSpec,
        flips: Vec<(u16, u8)>,
        truncate: Option<u16>,
        append: Vec<u8>,
    },
}

#[derive(Debug, Clone, Serialize, Deserialize, PartialEq)]
pub struct PacketSpec {
    pub vn: u8,
    pub mode: u8,
    pub li: u8,
    pub stratum: u8,
    pub poll: u8,
    pub precision: u8,
    pub root_delay: u32,
    pub root_disp: u32,
    pub refid: u32,
    pub upgrade: bool,
    /// 8-byte canaries / values for header fields: v4 (ref_ts unless upgrade, org, rx), v5 (server cookie)
    pub hdr_a: u64,
    pub hdr_b: u64,
    pub hdr_c: u64,
    /// v4 transmit timestamp / v5 client cookie
    pub tx: u64,
    /// v5 only
    pub timescale: u8,
    pub era: u8,
    pub flags: u16,
    /// v5: include the correct draft identification field (false = omit, or wrong one if `draft_wrong`)
    pub draft_ok: bool,
    pub draft_wrong: bool,
    /// RFC 7822 conformant EF sizes for v4 (>= 16, last >= 28 without MAC)
    pub conformant_sizes: bool,
    pub pre: Vec<EfSpec>,
    pub nts: Option<NtsSpec>,
    pub post: Vec<EfSpec>,
    pub mac: Option<Vec<u8>>,
}

#[derive(Debug, Clone, Serialize, Deserialize, PartialEq)]
pub enum EfSpec {
    Uid(Vec<u8>),
    Unknown { ty: u16, body: Vec<u8> },
    Cookie(CookieSpec),
    Placeholder { len: u16 },
    BadPlaceholder { len: u16 },
    Padding { len: u16 },
    RefIdReq { offset: u16, len: u16 },
    RefIdResp { body: Vec<u8> },
    ExtraDraftId(Vec<u8>),
    /// a raw NTS authenticator field: lengths as given, not necessarily consistent
    RawAuth { nonce_len: u16, ct_len: u16, body: Vec<u8>, odd: bool },
}

#[derive(Debug, Clone, Serialize, Deserialize, PartialEq)]
pub enum CookieSpec {
    /// cookie issued `age` rotations ago (0 = under the current key)
    Issued { age: u8 },
    Foreign,
    Garbage(Vec<u8>),
    Tampered { age: u8, pos: u16, xor: u8 },
}

#[derive(Debug, Clone, Serialize, Deserialize, PartialEq)]
pub enum KeySel {
    C2S,
    S2C,
    Other(u64),
}

#[derive(Debug, Clone, Serialize, Deserialize, PartialEq)]
pub struct NtsSpec {
    pub key: KeySel,
    pub alg512: bool,
    pub nonce: Vec<u8>,
    pub inner: Vec<EfSpec>,
    pub extra_pad: u8,
    pub corrupt: Option<(u16, u8)>,
}

// ---------------------------------------------------------------------------
// deterministic key material from a seed (splitmix64)

pub fn seeded_bytes(seed: u64, n: usize) -> Vec<u8> {
    let mut x = seed;
    let mut out = Vec::with_capacity(n);
    while out.len() < n {
        x = x.wrapping_add(0x9E37_79B9_7F4A_7C15);
        let mut z = x;
        z = (z ^ (z >> 30)).wrapping_mul(0xBF58_476D_1CE4_E5B9);
        z = (z ^ (z >> 27)).wrapping_mul(0x94D0_49BB_1331_11EB);
        z ^= z >> 31;
        out.extend_from_slice(&z.to_le_bytes());
    }
    out.truncate(n);
    out
}

#[derive(Debug, Clone)]
pub struct SessionKeys {
    pub c2s: AeadKey,
    pub s2c: AeadKey,
}
pub fn session_keys(seed: u64, alg512: bool) -> SessionKeys {
    let n = if alg512 { 64 } else { 32 };
    SessionKeys {
        c2s: AeadKey(seeded_bytes(seed ^ 0xC2, n)),
        s2c: AeadKey(seeded_bytes(seed ^ 0x52C, n)),
    }
}

// ---------------------------------------------------------------------------
// clock + stats

#[derive(Clone, Debug)]
pub struct FixedClock(pub Arc<std::sync::atomic::AtomicU64>);
#[derive(Debug)]
pub struct ClockErr;
impl std::fmt::Display for ClockErr {
    fn fmt(&self, f: &mut std::fmt::Formatter<'_>) -> std::fmt::Result {
        write!(f, "clock error")
    }
}
impl std::error::Error for ClockErr {}
impl NtpClock for FixedClock {
    type Error = ClockErr;
    fn now(&self) -> Result<NtpTimestamp, ClockErr> {
        Ok(nh::time::timestamp_from_raw(self.0.load(std::sync::atomic::Ordering::Relaxed)))
    }
    fn set_frequency(&self, _: f64) -> Result<NtpTimestamp, ClockErr> {
        self.now()
    }
    fn get_frequency(&self) -> Result<f64, ClockErr> {
        Ok(0.0)
    }
    fn step_clock(&self, _: NtpDuration) -> Result<NtpTimestamp, ClockErr> {
        self.now()
    }
    fn disable_ntp_algorithm(&self) -> Result<(), ClockErr> {
        Ok(())
    }
    fn error_estimate_update(&self, _: NtpDuration, _: NtpDuration) -> Result<(), ClockErr> {
        Ok(())
    }
    fn status_update(&self, _: NtpLeapIndicator) -> Result<(), ClockErr> {
        Ok(())
    }
}

#[derive(Debug, Clone, Copy, PartialEq, Eq)]
pub struct StatEntry {
    pub version: u8,
    pub nts: bool,
    pub reason: ServerReason,
    pub response: ServerResponse,
}
#[derive(Default, Debug)]
pub struct RecStats(pub Vec<StatEntry>);
impl ServerStatHandler for RecStats {
    fn register(&mut self, version: u8, nts: bool, reason: ServerReason, response: ServerResponse) {
        self.0.push(StatEntry { version, nts, reason, response });
    }
}

// ---------------------------------------------------------------------------
// reference subnet arithmetic

/// canonical (is_v4, value left-aligned in 128 bits)
pub fn canon(ip: IpAddr) -> (bool, u128) {
    match ip.to_canonical() {
        IpAddr::V4(a) => (true, (u32::from(a) as u128) << 96),
        IpAddr::V6(a) => (false, u128::from(a)),
    }
}
pub fn ref_member(subnets: &[IpSubnet], ip: IpAddr) -> bool {
    let (v4, val) = canon(ip);
    subnets.iter().any(|s| {
        let (sv4, sval) = match s.addr {
            IpAddr::V4(a) => (true, (u32::from(a) as u128) << 96),
            IpAddr::V6(a) => (false, u128::from(a)),
        };
        if sv4 != v4 {
            return false;
        }
        let m = s.mask as u32;
        if m == 0 {
            return true;
        }
        (val >> (128 - m)) == (sval >> (128 - m))
    })
}

// ---------------------------------------------------------------------------
// building datagrams from specs

pub struct Built {
    pub bytes: Vec<u8>,
    /// 8-byte canaries planted in fields the server must not reflect
    pub canaries: Vec<Vec<u8>>,
    /// session keys used by this request (if it carries NTS)
    pub keys: Option<SessionKeys>,
    /// cookie bytes issued by the server keyset that this request carries in its pre-auth part
    pub cookie: Option<Vec<u8>>,
}

pub struct CookieJar<'a> {
    /// keysets, oldest first; last = current
    pub keysets: &'a [Arc<KeySet>],
    pub foreign: &'a Arc<KeySet>,
}

impl CookieJar<'_> {
    pub fn issue(&self, age: u8, keys: &SessionKeys) -> Vec<u8> {
        let idx = self.keysets.len().saturating_sub(1 + age as usize);
        let dc = nh::make_cookie(&keys.s2c.0, &keys.c2s.0).unwrap();
        self.keysets[idx].encode_cookie_pub(&dc)
    }
    pub fn foreign(&self, keys: &SessionKeys) -> Vec<u8> {
        let dc = nh::make_cookie(&keys.s2c.0, &keys.c2s.0).unwrap();
        self.foreign.encode_cookie_pub(&dc)
    }
}

fn ef_bytes(
    spec: &EfSpec,
    v5: bool,
    min_total: usize,
    jar: &CookieJar,
    keys: &SessionKeys,
    canaries: &mut Vec<Vec<u8>>,
    cookie_out: &mut Option<Vec<u8>>,
) -> Vec<u8> {
    let mk = |ty: u16, value: &[u8]| -> Vec<u8> {
        let ef = if v5 { RawEf::v5(ty, value) } else { RawEf::v4(ty, value, min_total) };
        let mut o = Vec::new();
        ef.encode(&mut o);
        o
    };
    match spec {
        EfSpec::Uid(v) => mk(EF_UID, v),
        EfSpec::Unknown { ty, body } => {
            // keep clear of the types the parser knows
            let ty = match *ty {
                EF_UID | EF_COOKIE | EF_PLACEHOLDER | EF_AUTH | EF_DRAFT_ID | EF_PADDING
                | EF_REFID_REQ | EF_REFID_RESP => ty.wrapping_add(0x1000),
                t => t,
            };
            if body.len() >= 8 {
                canaries.push(body[..8].to_vec());
            }
            mk(ty, body)
        }
        EfSpec::Cookie(c) => {
            let bytes = match c {
                CookieSpec::Issued { age } => jar.issue(*age, keys),
                CookieSpec::Foreign => jar.foreign(keys),
                CookieSpec::Garbage(g) => g.clone(),
                CookieSpec::Tampered { age, pos, xor } => {
                    let mut b = jar.issue(*age, keys);
                    let i = crate::engine::idx(*pos, b.len());
                    b[i] ^= (*xor).max(1);
                    b
                }
            };
            if cookie_out.is_none() {
                *cookie_out = Some(bytes.clone());
            }
            mk(EF_COOKIE, &bytes)
        }
        EfSpec::Placeholder { len } => mk(EF_PLACEHOLDER, &vec![0u8; *len as usize]),
        EfSpec::BadPlaceholder { len } => {
            let mut v = vec![0u8; (*len as usize).max(1)];
            let n = v.len();
            v[n / 2] = 0x5A;
            mk(EF_PLACEHOLDER, &v)
        }
        EfSpec::Padding { len } => mk(EF_PADDING, &vec![0u8; *len as usize]),
        EfSpec::RefIdReq { offset, len } => {
            let mut v = vec![0u8; (*len as usize).max(2)];
            v[..2].copy_from_slice(&offset.to_be_bytes());
            mk(EF_REFID_REQ, &v)
        }
        EfSpec::RefIdResp { body } => {
            if body.len() >= 8 {
                canaries.push(body[..8].to_vec());
            }
            mk(EF_REFID_RESP, body)
        }
        EfSpec::ExtraDraftId(v) => mk(EF_DRAFT_ID, v),
        EfSpec::RawAuth { nonce_len, ct_len, body, odd } => {
            let mut value = Vec::new();
            value.extend_from_slice(&nonce_len.to_be_bytes());
            value.extend_from_slice(&ct_len.to_be_bytes());
            value.extend_from_slice(body);
            if v5 && *odd {
                // NTPv5 allows a declared length that is not a multiple of four
                let mut o = Vec::new();
                RawEf::v5(EF_AUTH, &value).encode(&mut o);
                o
            } else {
                mk(EF_AUTH, &value)
            }
        }
    }
}

pub fn build_packet(p: &PacketSpec, jar: &CookieJar, key_seed: u64) -> Built {
    let v5 = p.vn == 5;
    let mut canaries = Vec::new();
    let mut out: Vec<u8> = Vec::new();
    if v5 {
        out.extend_from_slice(
            &Hdr5 {
                li: p.li,
                mode: p.mode,
                stratum: p.stratum,
                poll: p.poll,
                precision: p.precision,
                root_delay: p.root_delay,
                root_disp: p.root_disp,
                timescale: p.timescale,
                era: p.era,
                flags: p.flags,
                server_cookie: p.hdr_a,
                client_cookie: p.tx,
                rx: p.hdr_b,
                tx: p.hdr_c,
            }
            .encode(),
        );
        canaries.push(p.hdr_a.to_be_bytes().to_vec());
        canaries.push(p.hdr_b.to_be_bytes().to_vec());
        canaries.push(p.hdr_c.to_be_bytes().to_vec());
    } else {
        out.extend_from_slice(
            &Hdr4 {
                li: p.li,
                vn: p.vn,
                mode: p.mode,
                stratum: p.stratum,
                poll: p.poll,
                precision: p.precision,
                root_delay: p.root_delay,
                root_disp: p.root_disp,
                refid: p.refid,
                ref_ts: if p.upgrade { UPGRADE_TS } else { p.hdr_a },
                org: p.hdr_b,
                rx: p.hdr_c,
                tx: p.tx,
            }
            .encode(),
        );
        if !p.upgrade {
            canaries.push(p.hdr_a.to_be_bytes().to_vec());
        }
        canaries.push(p.hdr_b.to_be_bytes().to_vec());
        canaries.push(p.hdr_c.to_be_bytes().to_vec());
    }
    let mut keys = None;
    let mut cookie = None;
    if p.vn == 3 {
        // no extension fields in v3
        if let Some(mac) = &p.mac {
            out.extend_from_slice(mac);
        }
        return Built { bytes: out, canaries, keys, cookie };
    }
    let sk = session_keys(key_seed, p.nts.as_ref().map(|n| n.alg512).unwrap_or(false));
    let n_fields = p.pre.len() + p.post.len() + usize::from(v5 && (p.draft_ok || p.draft_wrong));
    let mut emitted = 0usize;
    let has_auth = p.nts.is_some();
    let min_for = |emitted: usize, in_pre: bool| -> usize {
        if v5 || !p.conformant_sizes {
            4
        } else if in_pre && has_auth {
            16
        } else if emitted + 1 == n_fields && p.mac.is_none() {
            28
        } else {
            16
        }
    };
    for e in &p.pre {
        let m = min_for(emitted, true);
        out.extend(ef_bytes(e, v5, m, jar, &sk, &mut canaries, &mut cookie));
        emitted += 1;
    }
    if v5 && has_auth && (p.draft_ok || p.draft_wrong) {
        // in NTS requests the client sends the draft id inside the authenticated part
        let id: &[u8] = if p.draft_ok { DRAFT_VERSION.as_bytes() } else { b"draft-ietf-ntp-ntpv5-00" };
        let mut o = Vec::new();
        RawEf::v5(EF_DRAFT_ID, id).encode(&mut o);
        out.extend(o);
        emitted += 1;
    }
    if let Some(n) = &p.nts {
        let mut inner = Vec::new();
        let mut dummy = None;
        for e in &n.inner {
            // encrypted fields may be arbitrarily short; their canaries must never come back
            let b = ef_bytes(e, v5, 4, jar, &sk, &mut canaries, &mut dummy);
            inner.extend(b);
        }
        let key = match &n.key {
            KeySel::C2S => sk.c2s.clone(),
            KeySel::S2C => sk.s2c.clone(),
            KeySel::Other(s) => AeadKey(seeded_bytes(*s, sk.c2s.0.len())),
        };
        let mut ef = build_auth_ef(&key, &n.nonce, &out, &inner, n.extra_pad as usize);
        if let Some((pos, xor)) = n.corrupt {
            let i = 8 + crate::engine::idx(pos, ef.len() - 8);
            ef[i] ^= xor.max(1);
        }
        out.extend(ef);
        keys = Some(sk.clone());
    }
    for e in &p.post {
        let m = min_for(emitted, false);
        let mut dummy = None;
        out.extend(ef_bytes(e, v5, m, jar, &sk, &mut canaries, &mut dummy));
        emitted += 1;
    }
    if v5 && !has_auth && (p.draft_ok || p.draft_wrong) {
        let id: &[u8] = if p.draft_ok { DRAFT_VERSION.as_bytes() } else { b"draft-ietf-ntp-ntpv5-00" };
        let mut o = Vec::new();
        RawEf::v5(EF_DRAFT_ID, id).encode(&mut o);
        out.extend(o);
    }
    if !v5 {
        if let Some(mac) = &p.mac {
            out.extend_from_slice(mac);
        }
    }
    Built { bytes: out, canaries, keys, cookie }
}

pub fn build_request(r: &ReqSpec, jar: &CookieJar, key_seed: u64) -> Built {
    match r {
        ReqSpec::Built(p) => build_packet(p, jar, key_seed),
        ReqSpec::Raw(b) => Built { bytes: b.clone(), canaries: vec![], keys: None, cookie: None },
        ReqSpec::Mutated { base, flips, truncate, append } => {
            let mut b = build_packet(base, jar, key_seed);
            for (pos, xor) in flips {
                if !b.bytes.is_empty() {
                    let i = crate::engine::idx(*pos, b.bytes.len());
                    b.bytes[i] ^= (*xor).max(1);
                }
            }
            if let Some(t) = truncate {
                let n = crate::engine::idx(*t, b.bytes.len() + 1);
                b.bytes.truncate(n);
            }
            b.bytes.extend_from_slice(append);
            b.bytes.truncate(1024);
            // mutated packets: ground truth about canaries no longer holds
            b.canaries.clear();
            b
        }
    }
}

// ---------------------------------------------------------------------------
// running a case

pub struct Exchange {
    pub addr: IpAddr,
    pub recv_ts: u64,
    pub now_ts: u64,
    pub request: Vec<u8>,
    pub built: Built,
    /// answer with the daemon's request-sized buffer
    pub answer_small: Option<Vec<u8>>,
    pub stats_small: Vec<StatEntry>,
    /// answer of the twin server with a 4 KiB buffer
    pub answer_large: Option<Vec<u8>>,
    pub stats_large: Vec<StatEntry>,
    pub deny_member: bool,
    pub allow_member: bool,
    /// index of the current keyset in `World::keysets`
    pub keyset_idx: usize,
}

pub struct World {
    pub cfg: ServerConfig,
    pub deny: Vec<IpSubnet>,
    pub allow: Vec<IpSubnet>,
    pub info: NtpServerInfo,
    pub keysets: Vec<Arc<KeySet>>,
    pub exchanges: Vec<Exchange>,
}

pub fn leap_from(n: u8) -> NtpLeapIndicator {
    match n % 5 {
        0 => NtpLeapIndicator::NoWarning,
        1 => NtpLeapIndicator::Leap61,
        2 => NtpLeapIndicator::Leap59,
        3 => NtpLeapIndicator::Unknown,
        _ => NtpLeapIndicator::Unsynchronized,
    }
}

pub fn versions(mask: u8) -> Vec<NtpVersion> {
    let mut v = Vec::new();
    if mask & 1 != 0 {
        v.push(NtpVersion::V3);
    }
    if mask & 2 != 0 {
        v.push(NtpVersion::V4);
    }
    if mask & 4 != 0 {
        v.push(NtpVersion::V5);
    }
    v
}

pub fn make_info(s: &StateSpec, key_seed: u64) -> NtpServerInfo {
    use rand::SeedableRng;
    let mut info = NtpServerInfo::default();
    info.time_snapshot.precision = NtpDuration::from_exponent(s.precision_exp);
    info.time_snapshot.root_delay = nh::time::duration_from_raw(s.root_delay.max(0));
    info.time_snapshot.root_variance_base_time = nh::time::timestamp_from_raw(s.var_base_time);
    info.time_snapshot.root_variance_base = s.var_base;
    info.time_snapshot.root_variance_linear = s.var_linear;
    info.time_snapshot.root_variance_quadratic = s.var_quadratic;
    info.time_snapshot.root_variance_cubic = s.var_cubic;
    info.time_snapshot.leap_indicator = leap_from(s.leap);
    info.ntp_snapshot.stratum = s.stratum;
    info.ntp_snapshot.reference_id = nh::refid_from_u32(s.refid);
    let mut rng = rand::rngs::StdRng::seed_from_u64(key_seed ^ 0xB100);
    for _ in 0..s.bloom_ids {
        let id = ntp_proto::v5::ServerId::new(&mut rng);
        info.ntp_snapshot.bloom_filter.add_id(&id);
    }
    info
}

pub fn parse_subnets(v: &[String]) -> Vec<IpSubnet> {
    v.iter().filter_map(|s| s.parse().ok()).collect()
}

/// `[[server]]` table text for a configuration spec; None when a list holds text that is not a subnet
pub fn server_table_toml(c: &CfgSpec, listen: &str, cache_size: usize, cutoff_ms: u64) -> Option<String> {
    if c.deny.iter().chain(c.allow.iter()).any(|s| s.parse::<IpSubnet>().is_err()) {
        return None;
    }
    let list = |v: &[String]| v.iter().map(|s| format!("{s:?}")).collect::<Vec<_>>().join(", ");
    let act = |d: bool| if d { "deny" } else { "ignore" };
    let versions: Vec<String> = (0..3).filter(|i| c.accepted & (1 << i) != 0).map(|i| (3 + i).to_string()).collect();
    Some(format!(
        "listen = {listen:?}\nrate-limiting-cache-size = {cache_size}\nrate-limiting-cutoff-ms = {cutoff_ms}\nrequire-nts = {}\naccept-ntp-versions = [{}]\n[denylist]\nfilter = [{}]\naction = {:?}\n[allowlist]\nfilter = [{}]\naction = {:?}\n",
        match c.require_nts {
            None => "false".to_string(),
            Some(false) => "\"ignore\"".to_string(),
            Some(true) => "\"deny\"".to_string(),
        },
        versions.join(", "),
        list(&c.deny),
        act(c.deny_is_deny),
        list(&c.allow),
        act(c.allow_is_deny),
    ))
}

pub fn daemon_config_via_toml(c: &CfgSpec) -> Option<ServerConfig> {
    let text = server_table_toml(c, "127.0.0.1:123", 0, 3_600_000)?;
    let d: ntpd::verif_hook::DaemonServerConfig = toml::from_str(&text).ok()?;
    Some(d.into())
}

pub fn run_case(case: &ServerCase, with_large: bool) -> World {
    let deny = parse_subnets(&case.cfg.deny);
    let allow = parse_subnets(&case.cfg.allow);
    let act = |d: bool| if d { FilterAction::Deny } else { FilterAction::Ignore };
    let direct = ServerConfig {
        denylist: FilterList { filter: deny.clone(), action: act(case.cfg.deny_is_deny) },
        allowlist: FilterList { filter: allow.clone(), action: act(case.cfg.allow_is_deny) },
        rate_limiting_cache_size: 0,
        rate_limiting_cutoff: Duration::from_secs(0),
        require_nts: case.cfg.require_nts.map(act),
        accepted_versions: versions(case.cfg.accepted),
    };
    // the configuration as the daemon gets it: a [[server]] table read by the daemon's deserialiser and converted
    // for the protocol layer. Rate limiting is off through cache size 0; the cutoff is nevertheless an hour, so a
    // cache that is not really off would silence the second request of any client.
    let cfg = daemon_config_via_toml(&case.cfg).unwrap_or(direct);
    let info = make_info(&case.state, case.key_seed);
    let mut provider = if case.id_offset == 0 {
        KeySetProvider::dangerous_new_deterministic(case.history as usize)
    } else {
        // as restored from a key file whose ids are about to wrap
        let keys = vec![crate::w_keys::bytes(case.key_seed ^ 0x1d0f, 64)];
        let img = crate::w_keys::image(1_700_000_000, case.id_offset, 0, 1, &keys);
        crate::w_keys::load(&img, case.history as usize).expect("well-formed key file").0
    };
    let mut keysets = vec![provider.get()];
    for _ in 0..case.initial_rotations {
        provider.rotate();
        keysets.push(provider.get());
    }
    let foreign = KeySetProvider::new(0).get();
    let now = Arc::new(std::sync::atomic::AtomicU64::new(0));
    let shared_info = Arc::new(RwLock::new(info));
    let mut small = Server::new_internal(
        cfg.clone(),
        FixedClock(now.clone()),
        shared_info.clone(),
        provider.get(),
    );
    let mut large = Server::new_internal(
        cfg.clone(),
        FixedClock(now.clone()),
        shared_info.clone(),
        provider.get(),
    );
    let mut exchanges = Vec::new();
    for (i, item) in case.reqs.iter().enumerate() {
        if item.rotate_before {
            provider.rotate();
            keysets.push(provider.get());
            small.update_keyset(provider.get());
            large.update_keyset(provider.get());
        }
        let jar = CookieJar { keysets: &keysets, foreign: &foreign };
        let built = build_request(&item.req, &jar, case.key_seed.wrapping_add(i as u64 * 7919));
        let request = built.bytes.clone();
        let addr = item.addr.ip();
        now.store(item.now_ts, std::sync::atomic::Ordering::Relaxed);
        let recv = nh::time::timestamp_from_raw(item.recv_ts);
        let mut st = RecStats::default();
        let mut buf = vec![0u8; request.len()];
        let answer_small = match small.handle(addr, recv, &request, &mut buf, &mut st) {
            ServerAction::Ignore => None,
            ServerAction::Respond { message } => Some(message.to_vec()),
        };
        let (answer_large, stats_large) = if with_large {
            let mut st2 = RecStats::default();
            let mut buf2 = vec![0u8; 4096];
            let a = match large.handle(addr, recv, &request, &mut buf2, &mut st2) {
                ServerAction::Ignore => None,
                ServerAction::Respond { message } => Some(message.to_vec()),
            };
            (a, st2.0)
        } else {
            (None, vec![])
        };
        exchanges.push(Exchange {
            addr,
            recv_ts: item.recv_ts,
            now_ts: item.now_ts,
            request,
            built,
            answer_small,
            stats_small: st.0,
            answer_large,
            stats_large,
            deny_member: ref_member(&deny, addr),
            allow_member: ref_member(&allow, addr),
            keyset_idx: keysets.len() - 1,
        });
    }
    World { cfg, deny, allow, info, keysets, exchanges }
}

// ---------------------------------------------------------------------------
// classification of answers (reference decoder)

#[derive(Debug, Clone, Copy, PartialEq, Eq)]
pub enum AnswerKind {
    Time,
    Deny,
    Nak,
    Rate,
    OtherKiss,
    Undecodable,
}

pub fn answer_kind(bytes: &[u8]) -> AnswerKind {
    let Some(p) = decode_packet(bytes, None) else {
        return AnswerKind::Undecodable;
    };
    match p.hdr {
        Hdr::V34(h) => {
            if h.stratum != 0 {
                AnswerKind::Time
            } else {
                match h.refid {
                    KISS_DENY => AnswerKind::Deny,
                    KISS_NTSN => AnswerKind::Nak,
                    KISS_RATE => AnswerKind::Rate,
                    _ => AnswerKind::OtherKiss,
                }
            }
        }
        Hdr::V5(h) => {
            if h.stratum != 0 {
                AnswerKind::Time
            } else if h.flags & V5_FLAG_AUTHNAK != 0 {
                AnswerKind::Nak
            } else if h.poll == 127 {
                AnswerKind::Deny
            } else {
                AnswerKind::Rate
            }
        }
    }
}

// ---------------------------------------------------------------------------
// strategies

pub fn subnet_pool() -> Vec<&'static str> {
    vec![
        "0.0.0.0/0", "10.0.0.0/8", "10.1.0.0/16", "10.1.2.0/24", "10.1.2.3/32", "10.1.2.128/25",
        "192.168.0.0/16", "192.168.1.0/24", "128.0.0.0/1", "127.0.0.1/32", "172.16.0.0/12",
        "::/0", "2001:db8::/32", "2001:db8:1::/48", "2001:db8:1:2::/64", "2001:db8::1/128",
        "::ffff:10.1.0.0/112", "::ffff:192.168.1.0/120", "fe80::/10", "8000::/1", "::1/128",
        "::ffff:0.0.0.0/96",
    ]
}

pub fn addr_strategy() -> BoxedStrategy<AddrSpec> {
    let v4s: Vec<u32> = vec![
        0x0A010203, 0x0A010204, 0x0A010280, 0x0A01027F, 0x0A010300, 0x0A020000, 0x0AFFFFFF,
        0x0B000000, 0x09FFFFFF, 0xC0A80101, 0xC0A80201, 0x7F000001, 0x80000000, 0x7FFFFFFF,
        0xAC100001, 0xAC200001, 0x01020304, 0xFFFFFFFF, 0,
    ];
    let v6s: Vec<(u64, u64)> = vec![
        (0x20010db8_00000000, 1),
        (0x20010db8_00010002, 0x1234),
        (0x20010db8_00010003, 0),
        (0x20010db8_00020000, 5),
        (0x20010db9_00000000, 0),
        (0xfe800000_00000000, 1),
        (0xfec00000_00000000, 1),
        (0x80000000_00000000, 0),
        (0x7fffffff_ffffffff, u64::MAX),
        (0, 1),
        (0, 0x0000ffff_0a010203),
        (0, 0x0000ffff_c0a80105),
        (0, 0x0000ffff_01020304),
    ];
    prop_oneof![
        4 => prop::sample::select(v4s).prop_map(AddrSpec::V4),
        4 => prop::sample::select(v6s).prop_map(|(h, l)| AddrSpec::V6(h, l)),
        1 => any::<u32>().prop_map(AddrSpec::V4),
        1 => (any::<u64>(), any::<u64>()).prop_map(|(h, l)| AddrSpec::V6(h, l)),
    ]
    .boxed()
}

/// a subnet built from a few base addresses (host bits may be set) and any prefix length, so that lists
/// hold entries that share a masked base, nest at non-nibble boundaries and come in any order
pub fn gen_subnet() -> BoxedStrategy<String> {
    let v4 = vec!["192.168.0.0", "192.168.255.255", "10.1.2.3", "172.16.0.0", "128.0.0.0", "255.255.255.255", "0.0.0.0"];
    let v6 = vec!["2001:db8::", "2001:db8:1:2::5", "fe80::", "::", "ffff:ffff:ffff:ffff:ffff:ffff:ffff:ffff", "8000::"];
    let mapped = vec!["::ffff:10.1.2.3", "::ffff:192.168.0.0"];
    prop_oneof![
        4 => (prop::sample::select(v4), 0u8..=32).prop_map(|(a, l)| format!("{a}/{l}")),
        3 => (prop::sample::select(v6), 0u8..=128).prop_map(|(a, l)| format!("{a}/{l}")),
        1 => (prop::sample::select(mapped), 96u8..=128).prop_map(|(a, l)| format!("{a}/{l}")),
    ]
    .boxed()
}

/// an address at the edge of one of the configured subnets: the subnet's network bits with one bit around the
/// prefix boundary flipped (`delta`: 0 = none, 1..=4 = bit m-2..m+1) and `low` as the bits behind it
pub fn near_subnet(cfg: &CfgSpec, idx: u8, delta: u8, low: u64) -> Option<AddrSpec> {
    let all: Vec<IpSubnet> = parse_subnets(&cfg.deny).into_iter().chain(parse_subnets(&cfg.allow)).collect();
    if all.is_empty() {
        return None;
    }
    let s = &all[idx as usize % all.len()];
    let (v4, base, width) = match s.addr {
        IpAddr::V4(a) => (true, (u32::from(a) as u128) << 96, 32u32),
        IpAddr::V6(a) => (false, u128::from(a), 128u32),
    };
    let m = (s.mask as u32).min(width);
    let net_mask: u128 = if m == 0 { 0 } else { !0u128 << (128 - m) };
    let mut val = base & net_mask;
    let mut host_from = m;
    if delta > 0 {
        let p = (m + delta as u32).checked_sub(3);
        if let Some(p) = p.filter(|p| *p < width) {
            val ^= 1u128 << (127 - p);
            host_from = host_from.max(p + 1);
        }
    }
    if host_from < width {
        let spread = ((low as u128) << 64) | (low as u128).rotate_left(17);
        let host_mask = (!0u128 >> host_from) & (!0u128 << (128 - width));
        val |= spread & host_mask;
    }
    Some(if v4 { AddrSpec::V4((val >> 96) as u32) } else { AddrSpec::V6((val >> 64) as u64, val as u64) })
}

pub fn cfg_strategy() -> BoxedStrategy<CfgSpec> {
    let pool = subnet_pool();
    let list = move |max: usize| {
        let pool = pool.clone();
        let n = pool.len();
        prop::collection::vec(
            prop_oneof![
                1 => (0..n).prop_map(move |i| pool[i].to_string()),
                1 => gen_subnet(),
            ],
            0..=max,
        )
    };
    (
        prop_oneof![3 => Just(Vec::<String>::new()).boxed(), 2 => list(4).boxed()],
        any::<bool>(),
        prop_oneof![
            3 => Just(vec!["0.0.0.0/0".to_string(), "::/0".to_string()]).boxed(),
            2 => list(5).boxed()
        ],
        any::<bool>(),
        prop_oneof![4 => Just(None), 1 => Just(Some(false)), 1 => Just(Some(true))],
        prop_oneof![5 => Just(7u8), 1 => 0u8..8],
    )
        .prop_map(|(deny, deny_is_deny, allow, allow_is_deny, require_nts, accepted)| CfgSpec {
            deny,
            deny_is_deny,
            allow,
            allow_is_deny,
            require_nts,
            accepted,
        })
        .boxed()
}

pub fn state_strategy() -> BoxedStrategy<StateSpec> {
    let var = || {
        prop_oneof![
            3 => Just(0.0f64),
            3 => 0.0f64..1e-3,
            1 => 0.0f64..1e6,
            1 => -1e-9f64..0.0,
        ]
    };
    (
        prop_oneof![3 => 1u8..16, 1 => Just(16u8), 1 => 1u8..=255],
        0u8..5,
        any::<u32>(),
        prop_oneof![3 => 0i64..(1 << 30), 1 => 0i64..(1 << 48), 1 => Just(0i64), 1 => 0i64..i64::MAX],
        var(),
        var(),
        var(),
        var(),
        any::<u64>(),
        -32i8..0,
        0u8..4,
    )
        .prop_map(
            |(stratum, leap, refid, root_delay, var_base, var_linear, var_quadratic, var_cubic, var_base_time, precision_exp, bloom_ids)| StateSpec {
                stratum,
                leap,
                refid,
                root_delay,
                var_base,
                var_linear,
                var_quadratic,
                var_cubic,
                var_base_time,
                precision_exp,
                bloom_ids,
            },
        )
        .boxed()
}

fn bytes(range: std::ops::Range<usize>) -> BoxedStrategy<Vec<u8>> {
    prop::collection::vec(any::<u8>(), range).boxed()
}

pub fn ef_strategy(allow_cookie: bool) -> BoxedStrategy<EfSpec> {
    let cookie = prop_oneof![
        6 => (0u8..4).prop_map(|age| CookieSpec::Issued { age }),
        1 => Just(CookieSpec::Foreign),
        1 => bytes(0..200).prop_map(CookieSpec::Garbage),
        1 => (0u8..2, any::<u16>(), any::<u8>()).prop_map(|(age, pos, xor)| CookieSpec::Tampered { age, pos, xor }),
    ];
    let base = prop_oneof![
        4 => prop_oneof![
            3 => bytes(32..33),
            2 => bytes(0..64),
            1 => bytes(1..12),
        ].prop_map(EfSpec::Uid),
        3 => (any::<u16>(), bytes(0..80)).prop_map(|(ty, body)| EfSpec::Unknown { ty, body }),
        3 => prop_oneof![Just(104u16), Just(168u16), 0u16..300].prop_map(|len| EfSpec::Placeholder { len }),
        1 => (1u16..64).prop_map(|len| EfSpec::BadPlaceholder { len }),
        1 => (0u16..64).prop_map(|len| EfSpec::Padding { len }),
        2 => (prop_oneof![3 => 0u16..520, 1 => any::<u16>(), 1 => 0xFE00u16..=0xFFFF, 1 => prop::sample::select(vec![0xFFF0u16, 0xFFFC, 0xFFFF, 0x8000, 0xFE00])], prop_oneof![Just(4u16), Just(16), Just(64), Just(512), 0u16..40, 500u16..530, 510u16..700])
            .prop_map(|(offset, len)| EfSpec::RefIdReq { offset, len }),
        1 => bytes(0..40).prop_map(|body| EfSpec::RefIdResp { body }),
        1 => bytes(0..30).prop_map(EfSpec::ExtraDraftId),
        2 => (prop_oneof![0u16..40, any::<u16>()], prop_oneof![0u16..60, any::<u16>()], bytes(0..48), any::<bool>())
            .prop_map(|(nonce_len, ct_len, body, odd)| EfSpec::RawAuth { nonce_len, ct_len, body, odd }),
    ];
    if allow_cookie {
        prop_oneof![5 => base, 2 => cookie.prop_map(EfSpec::Cookie)].boxed()
    } else {
        base.boxed()
    }
}

/// conformant / near-conformant packet (mode 3) for version `vn`
pub fn packet_strategy() -> BoxedStrategy<PacketSpec> {
    let nts = prop_oneof![
        5 => Just(KeySel::C2S),
        1 => Just(KeySel::S2C),
        1 => any::<u64>().prop_map(KeySel::Other),
    ];
    let nts_spec = (
        nts,
        any::<bool>(),
        prop_oneof![6 => bytes(16..17), 1 => bytes(0..40)],
        prop::collection::vec(ef_strategy(true), 0..4),
        prop_oneof![4 => Just(0u8), 1 => 0u8..4],
        prop_oneof![8 => Just(None), 1 => (any::<u16>(), any::<u8>()).prop_map(Some)],
    )
        .prop_map(|(key, alg512, nonce, inner, extra_pad, corrupt)| NtsSpec {
            key,
            alg512,
            nonce,
            inner,
            extra_pad,
            corrupt,
        });
    let hdr = (
        prop_oneof![6 => Just(4u8), 5 => Just(5u8), 2 => Just(3u8), 1 => 0u8..8],
        prop_oneof![12 => Just(3u8), 1 => 0u8..8],
        0u8..4,
        any::<u8>(),
        prop_oneof![4 => 0u8..18, 1 => any::<u8>()],
        any::<u8>(),
        any::<u32>(),
        any::<u32>(),
        any::<u32>(),
        prop_oneof![4 => Just(false), 1 => Just(true)],
    );
    let hdr2 = (
        // reference timestamp: also values that resemble the NTPv5 upgrade marker "NTP5DRFT" without being it
        prop_oneof![
            8 => any::<u64>(),
            1 => any::<u32>().prop_map(|low| (UPGRADE_TS & 0xFFFF_FFFF_0000_0000) | low as u64),
            1 => (0u32..64).prop_map(|b| UPGRADE_TS ^ (1u64 << b)),
            1 => any::<u32>().prop_map(|high| ((high as u64) << 32) | (UPGRADE_TS & 0xFFFF_FFFF)),
        ],
        any::<u64>(),
        any::<u64>(),
        any::<u64>(),
        prop_oneof![6 => 0u8..4, 1 => any::<u8>()],
        any::<u8>(),
        prop_oneof![6 => 0u16..8, 1 => any::<u16>()],
        prop_oneof![8 => Just((true, false)), 1 => Just((false, false)), 1 => Just((false, true))],
        prop_oneof![3 => Just(true), 1 => Just(false)],
    );
    // the pre-auth part: when NTS is present usually uid + one cookie (+ placeholders)
    let pre_nts = (
        prop_oneof![5 => bytes(32..33), 1 => bytes(0..40)],
        prop_oneof![
            8 => (0u8..3).prop_map(|age| CookieSpec::Issued { age }),
            1 => Just(CookieSpec::Foreign),
            1 => bytes(0..200).prop_map(CookieSpec::Garbage),
            1 => (0u8..2, any::<u16>(), any::<u8>()).prop_map(|(age, pos, xor)| CookieSpec::Tampered { age, pos, xor }),
        ],
        prop::collection::vec(
            prop_oneof![
                4 => prop_oneof![Just(104u16), Just(168u16), 90u16..180].prop_map(|len| EfSpec::Placeholder { len }),
                1 => ef_strategy(true),
            ],
            0..12,
        ),
        any::<u8>(),
    )
        .prop_map(|(uid, cookie, mut rest, order)| {
            let mut v = vec![EfSpec::Uid(uid), EfSpec::Cookie(cookie)];
            if order % 5 == 0 {
                v.swap(0, 1);
            }
            if order % 7 == 0 {
                v.remove(0);
            }
            if order % 4 == 1 {
                // no unique identifier at all: every field in front of the authenticator is a cookie or placeholder
                v.retain(|e| !matches!(e, EfSpec::Uid(_)));
            }
            v.append(&mut rest);
            v
        });
    let body = prop_oneof![
        // plain
        4 => (prop::collection::vec(ef_strategy(true), 0..4), Just(None), Just(Vec::new())).boxed(),
        // NTS
        5 => (pre_nts, nts_spec.prop_map(Some), prop::collection::vec(ef_strategy(true), 0..2)).boxed(),
    ];
    let mac = prop_oneof![5 => Just(None), 1 => bytes(4..25).prop_map(Some), 1 => bytes(0..40).prop_map(Some)];
    (hdr, hdr2, body, mac)
        .prop_map(
            |(
                (vn, mode, li, stratum, poll, precision, root_delay, root_disp, refid, upgrade),
                (hdr_a, hdr_b, hdr_c, tx, timescale, era, flags, (draft_ok, draft_wrong), conformant_sizes),
                (pre, nts, post),
                mac,
            )| PacketSpec {
                vn,
                mode,
                li,
                stratum,
                poll,
                precision,
                root_delay,
                root_disp,
                refid,
                upgrade,
                hdr_a,
                hdr_b,
                hdr_c,
                tx,
                timescale,
                era,
                flags,
                draft_ok,
                draft_wrong,
                conformant_sizes,
                pre,
                nts,
                post,
                mac,
            },
        )
        .boxed()
}

/// RFC-conformant client requests (plain and NTS), built directly
pub fn conformant_strategy() -> BoxedStrategy<PacketSpec> {
    let simple_ef = prop_oneof![
        3 => bytes(32..33).prop_map(EfSpec::Uid),
        1 => bytes(1..65).prop_map(EfSpec::Uid),
        2 => (any::<u16>(), bytes(0..80)).prop_map(|(ty, body)| EfSpec::Unknown { ty, body }),
    ];
    let inner_ef = prop_oneof![
        2 => (any::<u16>(), bytes(0..60)).prop_map(|(ty, body)| EfSpec::Unknown { ty, body }),
        1 => bytes(1..40).prop_map(EfSpec::Uid),
        2 => prop_oneof![Just(104u16), Just(168u16), 60u16..200].prop_map(|len| EfSpec::Placeholder { len }),
    ];
    (
        (prop_oneof![3 => Just(4u8), 3 => Just(5u8), 1 => Just(3u8)], 0u8..4, any::<u8>(), 0u8..18, any::<u8>()),
        (any::<u32>(), any::<u32>(), any::<u32>(), any::<bool>(), any::<u64>(), any::<u64>(), any::<u64>(), any::<u64>()),
        (0u8..4, any::<u8>(), 0u16..8),
        prop::collection::vec(simple_ef, 0..4),
        prop_oneof![
            2 => Just(None),
            3 => (any::<bool>(), bytes(16..17), prop::collection::vec(inner_ef, 0..3), 0u8..3,
                  prop::collection::vec(prop_oneof![Just(104u16), Just(168u16), 90u16..180], 0..9), bytes(32..33))
                .prop_map(|(alg512, nonce, inner, age, placeholders, uid)| Some((alg512, nonce, inner, age, placeholders, uid))),
        ],
    )
        .prop_map(|((vn, li, stratum, poll, precision), (root_delay, root_disp, refid, upgrade, hdr_a, hdr_b, hdr_c, tx), (timescale, era, flags), plain_efs, nts)| {
            let (pre, nts) = match nts {
                Some((alg512, nonce, inner, age, placeholders, uid)) if vn != 3 => {
                    let mut pre = vec![EfSpec::Uid(uid), EfSpec::Cookie(CookieSpec::Issued { age })];
                    pre.extend(placeholders.into_iter().map(|len| EfSpec::Placeholder { len }));
                    (pre, Some(NtsSpec { key: KeySel::C2S, alg512, nonce, inner, extra_pad: 0, corrupt: None }))
                }
                _ => (if vn == 3 { vec![] } else { plain_efs }, None),
            };
            PacketSpec {
                vn, mode: 3, li, stratum, poll, precision, root_delay, root_disp, refid, upgrade,
                hdr_a, hdr_b, hdr_c, tx, timescale, era, flags, draft_ok: true, draft_wrong: false,
                conformant_sizes: true, pre, nts, post: vec![], mac: None,
            }
        })
        .boxed()
}

/// plain client requests whose extension fields are shorter than what the server emits when it echoes them
/// (the classes behind the C17 known findings), optionally followed by a legacy MAC of any accepted length:
/// the datagrams for which "the answer fits the request" is decided by a few bytes
pub fn tight_strategy() -> BoxedStrategy<PacketSpec> {
    (
        packet_strategy(),
        prop_oneof![5 => Just(4u8), 2 => Just(5u8)],
        prop::collection::vec(
            prop_oneof![
                4 => (0usize..7).prop_flat_map(|k| bytes(k * 4..k * 4 + 1)).prop_map(EfSpec::Uid),
                1 => bytes(0..28).prop_map(EfSpec::Uid),
                1 => (any::<u16>(), bytes(0..24)).prop_map(|(ty, body)| EfSpec::Unknown { ty, body }),
            ],
            1..4,
        ),
        prop_oneof![
            2 => Just(None),
            3 => bytes(4..25).prop_map(Some),
            // a trailer that reads like one more extension field (type, length = its own size or near it)
            2 => (prop::sample::select(vec![0x0104u16, 0x0204, 0x0304, 0x0404, 0xF5FF, 0x4000]), 1usize..=6, -1i32..=1, any::<u8>())
                .prop_map(|(ty, words, d, fill)| {
                    let n = words * 4;
                    let mut v = vec![fill; n];
                    v[..2].copy_from_slice(&ty.to_be_bytes());
                    v[2..4].copy_from_slice(&(((n as i32) + 4 * d).max(0) as u16).to_be_bytes());
                    Some(v)
                }),
        ],
    )
        .prop_map(|(mut p, vn, pre, mac)| {
            p.vn = vn;
            p.mode = 3;
            p.upgrade = false;
            p.draft_ok = true;
            p.draft_wrong = false;
            p.conformant_sizes = false;
            p.pre = pre;
            p.nts = None;
            p.post = vec![];
            p.mac = mac;
            p
        })
        .boxed()
}

/// authenticated NTS requests with a valid cookie and 0..=24 undersized unique-identifier fields in front of the
/// authenticator: the echo re-pads every field, so the room left for the answer's authenticator shrinks to
/// anything between plenty and nothing
pub fn tight_nts_strategy() -> BoxedStrategy<PacketSpec> {
    (
        packet_strategy(),
        prop_oneof![5 => Just(4u8), 2 => Just(5u8)],
        0usize..=24,
        prop_oneof![3 => Just(4usize), 1 => Just(0usize), 1 => Just(8usize), 1 => 0usize..13],
        0u8..2,
        any::<bool>(),
        any::<bool>(),
        prop::collection::vec(
            prop_oneof![
                1 => bytes(0..9).prop_map(EfSpec::Uid),
                1 => Just(EfSpec::Placeholder { len: 104 }),
            ],
            0..2,
        ),
    )
        .prop_map(|(mut p, vn, n, uid_len, age, cookie_first, alg512, inner)| {
            p.vn = vn;
            p.mode = 3;
            p.upgrade = false;
            p.draft_ok = true;
            p.draft_wrong = false;
            p.conformant_sizes = false;
            let mut pre: Vec<EfSpec> = (0..n).map(|i| EfSpec::Uid(vec![i as u8; uid_len])).collect();
            let cookie = EfSpec::Cookie(CookieSpec::Issued { age });
            if cookie_first {
                pre.insert(0, cookie);
            } else {
                pre.push(cookie);
            }
            p.pre = pre;
            p.nts = Some(NtsSpec { key: KeySel::C2S, alg512, nonce: vec![0x4e; 16], inner, extra_pad: 0, corrupt: None });
            p.post = vec![];
            p.mac = None;
            p
        })
        .boxed()
}

/// raw extension-field chains with adversarial length fields behind a well-formed header: known v4/v5 field
/// types, declared lengths equal to / slightly off / unrelated to the bytes present (also not multiples of
/// four), authenticator fields with small nonce and ciphertext length fields, optional tail of 0..28 bytes
pub fn ef_soup() -> BoxedStrategy<Vec<u8>> {
    let types: Vec<u16> = vec![
        0x0104, 0x0204, 0x0304, 0x0404, 0xF5FF, 0xF501, 0xF502, 0xF503, 0xF504, 0xF505, 0xF506, 0xF507, 0xF508, 0xF509, 0x4000, 0x0000,
    ];
    let field = (
        prop_oneof![6 => prop::sample::select(types), 1 => any::<u16>()],
        prop_oneof![10 => bytes(0..41), 2 => bytes(1..6), 1 => bytes(500..700)],
        prop_oneof![5 => Just(0i32), 3 => -3i32..=3, 1 => -40i32..=40, 1 => Just(i32::MIN), 1 => 0i32..0x10000],
        (0u16..25, 0u16..41, any::<bool>()),
        any::<bool>(),
    )
        .prop_map(|(ty, mut body, len_mode, (nonce_len, ct_len, as_auth), pad)| {
            if ty == 0x0404 || as_auth && ty & 0xFF == 0x04 {
                let mut b = Vec::new();
                b.extend(nonce_len.to_be_bytes());
                b.extend(ct_len.to_be_bytes());
                b.append(&mut body);
                body = b;
            }
            let actual = 4 + body.len() as i32;
            let declared: u16 = match len_mode {
                i32::MIN => 0,
                d if (-40..=40).contains(&d) => (actual + d).clamp(0, 0xFFFF) as u16,
                v => v as u16,
            };
            let mut out = Vec::new();
            out.extend(ty.to_be_bytes());
            out.extend(declared.to_be_bytes());
            out.extend(body);
            if pad {
                while out.len() % 4 != 0 {
                    out.push(0);
                }
            }
            out
        });
    (prop::collection::vec(field, 1..5), bytes(0..29))
        .prop_map(|(fields, tail)| {
            let mut v: Vec<u8> = fields.into_iter().flatten().collect();
            v.extend(tail);
            v
        })
        .boxed()
}

/// a well-formed v4/v5 header (no fields of its own) followed by an `ef_soup`
pub fn soup_request() -> BoxedStrategy<ReqSpec> {
    (packet_strategy(), prop_oneof![1 => Just(4u8), 1 => Just(5u8)], any::<bool>(), ef_soup())
        .prop_map(|(mut base, vn, draft, append)| {
            base.vn = vn;
            base.pre.clear();
            base.post.clear();
            base.nts = None;
            base.mac = None;
            base.draft_ok = draft;
            base.draft_wrong = false;
            ReqSpec::Mutated { base, flips: vec![], truncate: None, append }
        })
        .boxed()
}

pub fn req_strategy() -> BoxedStrategy<ReqSpec> {
    prop_oneof![
        6 => conformant_strategy().prop_map(ReqSpec::Built),
        1 => tight_strategy().prop_map(ReqSpec::Built),
        1 => tight_nts_strategy().prop_map(ReqSpec::Built),
        1 => soup_request(),
        8 => packet_strategy().prop_map(ReqSpec::Built),
        1 => bytes(0..200).prop_map(ReqSpec::Raw),
        1 => bytes(48..1025).prop_map(ReqSpec::Raw),
        3 => (
            packet_strategy(),
            prop::collection::vec((any::<u16>(), any::<u8>()), 0..3),
            prop_oneof![3 => Just(None), 1 => any::<u16>().prop_map(Some)],
            prop_oneof![3 => Just(Vec::new()).boxed(), 1 => bytes(0..60)],
        ).prop_map(|(base, flips, truncate, append)| ReqSpec::Mutated { base, flips, truncate, append }),
    ]
    .boxed()
}

pub fn case_strategy(max_reqs: usize) -> BoxedStrategy<ServerCase> {
    (
        cfg_strategy(),
        state_strategy(),
        0u8..4,
        0u8..4,
        any::<u64>(),
        prop_oneof![3 => Just(0u32), 1 => Just(u32::MAX), 1 => (u32::MAX - 3)..=u32::MAX, 1 => any::<u32>()],
        prop::collection::vec(
            (
                addr_strategy(),
                prop_oneof![
                    1 => Just(None),
                    1 => (any::<u8>(), 0u8..5, prop_oneof![1 => Just(0u64), 1 => Just(u64::MAX), 2 => any::<u64>()]).prop_map(Some)
                ],
                any::<u64>(),
                any::<u64>(),
                prop_oneof![9 => Just(false), 1 => Just(true)],
                req_strategy(),
            ),
            1..=max_reqs,
        ),
    )
        .prop_map(|(cfg, state, history, initial_rotations, key_seed, id_offset, reqs)| {
            let reqs = reqs
                .into_iter()
                .map(|(addr, near, recv_ts, now_ts, rotate_before, req)| {
                    let addr = near.and_then(|(i, d, l)| near_subnet(&cfg, i, d, l)).unwrap_or(addr);
                    ReqItem { addr, recv_ts, now_ts, rotate_before, req }
                })
                .collect();
            (cfg, state, history, initial_rotations, key_seed, id_offset, reqs)
        })
        .prop_map(|(cfg, state, history, initial_rotations, key_seed, id_offset, reqs)| ServerCase {
            cfg,
            state,
            history,
            initial_rotations,
            key_seed,
            id_offset,
            reqs,
        })
        .boxed()
}
