#!/usr/bin/env python3
"""mk_sens_table.py <rows.json>: markdown table for DESIGN.md section 7.1 from assemble_round.py output"""
import json, sys
rows = json.load(open(sys.argv[1]))
print("| seeded change | property | what it changes | needs | first pass | after strengthening | signature, cases until report |")
print("|---|---|---|---|---|---|---|")
def clean(t): return (t or '').replace('|', '/').replace('\n', ' ')
for r in rows:
    if len(r) < 7:
        print(f"| `{r[0]}` | {r[1]} | (demonstration not confirmed, not kept) | | | | |"); continue
    name, prop, first, after, sig, what, needs = r
    print(f"| `seeded/{name}` | {prop} | {clean(what)} | {clean(needs)} | {first} | {after or '—'} | {('`'+clean(sig)[:90]+'`') if sig else ''} |")
