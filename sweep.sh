#!/bin/bash
# multi-seed silence sweep on the unchanged tree: ./sweep.sh "<seeds>" [ids...]
cd /verif
seeds="$1"; shift
ids="$@"
[ -z "$ids" ] && ids=$(python3 -c "import json;print(' '.join(c['property_id'] for c in json.load(open('MANIFEST.json'))['checks']))")
for sd in $seeds; do for p in $ids; do
  out=$(VERIF_SEED=$sd ./check $p --tier quick 2>&1); rc=$?
  echo "seed=$sd $p rc=$rc $(echo "$out" | grep -E "^$p quick" | cut -c1-160)"
  [ $rc -ne 0 ] && echo "$out" | grep -E "failure:|VIOLATION|INCONCLUSIVE" | cut -c1-600
done; done
