#!/bin/bash
# mkws.sh <dir>: isolated development workspace (copy of /repo, hooks and harness with paths rewritten)
set -e
W="$1"; mkdir -p "$W"
rsync -a --exclude target --exclude .git /repo/ "$W/repo/"
rsync -a /verif/hooks/ "$W/hooks/"
rsync -a --exclude target /verif/harness/ "$W/harness/"
cp /verif/known_findings.json "$W/"; mkdir -p "$W/corpus" "$W/evidence"
grep -rl '/verif/hooks' "$W/repo" --include=*.rs | xargs sed -i "s#/verif/hooks#$W/hooks#g"
sed -i "s#/repo/#$W/repo/#g" "$W/harness/vlib/Cargo.toml"
cat > "$W/check" <<EOS
#!/bin/bash
set -u
export VERIF_ROOT="$W"
export CARGO_NET_OFFLINE=true
cd "$W/harness" || exit 2
if ! out=\$(cargo build --release -q -p vcheck 2>&1); then echo "\$out" | grep -E "^error" -A12 | head -80 >&2; echo "INCONCLUSIVE: build failed" >&2; exit 2; fi
cd "$W" && exec "$W/harness/target/release/vcheck" "\$@"
EOS
chmod +x "$W/check"
( cd "$W/repo" && git init -q && git add -A && git commit -qm base )
echo "workspace ready at $W"
