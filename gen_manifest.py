#!/usr/bin/env python3
"""Generates MANIFEST.json from manifest_src.json (per-property texts) + properties.jsonl."""
import json, subprocess
src = json.load(open('/verif/manifest_src.json'))
props = [json.loads(l) for l in open('/verif/properties.jsonl')]
checks = []; na = []
for p in props:
    pid = p['id']
    if pid in src['checks']:
        c = src['checks'][pid]
        checks.append({
            "property_id": pid,
            "quick_cmd": f"./check {pid} --tier quick",
            "thorough_cmd": f"./check {pid} --tier thorough",
            "evidence_file": f"/verif/evidence/{pid}.json",
            "replay_cmd_template": f"./check {pid} --replay {{path}}",
            "engine": c.get("engine", "vcheck"),
            "level_claimed": {"category": c.get("category", "exploration"), "text": c["text"], "design_ref": c.get("design_ref", f"DESIGN.md §2 {pid}")},
            "level_note": c["note"],
            "technique": c["technique"],
        })
    else:
        na.append({"property_id": pid, "reason": src.get('not_applicable', {}).get(pid, "check not built yet in this round (planned, see DESIGN.md §2); not claimed until it runs silently on the unchanged tree")})
m = {
    "version": 1,
    "setup_cmd": "./setup.sh",
    "hooks": src['hooks'],
    "engines": src['engines'],
    "checks": checks,
    "notes": src['notes'],
    "not_applicable": na,
}
json.dump(m, open('/verif/MANIFEST.json', 'w'), indent=1)
print(len(checks), 'checks,', len(na), 'not applicable')
