#!/bin/bash
# offline build of the harness workspace (rebuilds from /repo's working tree)
set -e
cd "$(dirname "$0")/harness"
export CARGO_NET_OFFLINE=true
cargo build --release -p vcheck
