#!/usr/bin/env python3
"""validate MANIFEST.json and evidence/*.json against the schemas (uses the tooling venv's jsonschema)"""
import json, sys, glob, jsonschema
ms=json.load(open('/root/.vp/MANIFEST.schema.json')); es=json.load(open('/root/.vp/EVIDENCE.schema.json'))
ok=True
try:
    jsonschema.validate(json.load(open('/verif/MANIFEST.json')), ms); print('MANIFEST ok')
except Exception as e:
    ok=False; print('MANIFEST INVALID', str(e)[:500])
for f in sorted(glob.glob('/verif/evidence/*.json')):
    try:
        jsonschema.validate(json.load(open(f)), es)
    except Exception as e:
        ok=False; print(f,'INVALID',str(e)[:300])
print('evidence checked', len(glob.glob('/verif/evidence/*.json')))
sys.exit(0 if ok else 1)
