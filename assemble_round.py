#!/usr/bin/env python3
"""assemble_round.py <round-tag> <evaldir-first> [<evaldir-after>]: copy confirmed seeded changes of a later round
from the scratch worktrees (/tmp/mutN/out) into /verif/seeded/<ID>-<round-tag>/ with what was confirmed here.
evaldir-first: results of the checks as they were when the change arrived; evaldir-after: results after
strengthening (only for those missed first)."""
import json, os, shutil, glob, sys
tag=sys.argv[1]; first=sys.argv[2]; after=sys.argv[3] if len(sys.argv)>3 else None
out='/verif/seeded'; rows=[]
for n in range(1,7):
    for d in sorted(glob.glob(f'/tmp/mut{n}/{os.environ.get("OUTSUB","out")}/C*')):
        i=os.path.basename(d)
        if not os.path.exists(f'{d}/patch.diff'): continue
        meta=json.load(open(f'{d}/meta.json'))
        conf=json.load(open(f'{d}/confirm.json')) if os.path.exists(f'{d}/confirm.json') else {}
        def ev(dirname):
            f=f'{dirname}/mut{n}-{i}.json'
            return json.load(open(f)) if dirname and os.path.exists(f) else {}
        e1=ev(first); e2=ev(after)
        confirmed = conf.get('passes_on_unchanged_tree') and conf.get('fails_with_patch')
        prop=meta.get('property', i[:3])
        if not confirmed:
            rows.append((i, prop, 'NOT CONFIRMED', '', '')); continue
        name=f"{i}-{tag}"; t=f'{out}/{name}'; os.makedirs(t, exist_ok=True)
        shutil.copy(f'{d}/patch.diff', t)
        if os.path.exists(f'{d}/demo.diff'): shutil.copy(f'{d}/demo.diff', t)
        for extra in glob.glob(f'{d}/demo*'):
            if os.path.isfile(extra) and not os.path.exists(f'{t}/{os.path.basename(extra)}'): shutil.copy(extra, t)
        m={'property': prop, 'round': tag, 'files': meta.get('files'), 'what_breaks': meta.get('what_breaks'),
           'needs_to_manifest': meta.get('needs_to_manifest'), 'demo_command': conf.get('demo_command') or meta.get('demo_command'),
           'confirmed_in_scratch_worktree': {'demo_passes_on_unchanged_tree': True, 'demo_fails_with_patch': True, 'existing_tests_pass_claimed_by_author': meta.get('existing_tests_pass')},
           'what_i_ran': ['git apply demo.diff && <demo_command>  (unchanged: pass)', 'git apply patch.diff && <demo_command>  (patched: fail)', f"git -C /repo apply patch.diff && ./check {prop} --tier quick && git -C /repo checkout -- ."],
           'check_result_when_it_arrived': {'caught': e1.get('caught'), 'runs': e1.get('runs')}}
        if e2: m['check_result_after_strengthening']={'caught': e2.get('caught'), 'runs': e2.get('runs')}
        note=f'{d}/verif_note.txt'
        if os.path.exists(note): m['note']=open(note).read().strip()
        json.dump(m, open(f'{t}/meta.json','w'), indent=1)
        fin = e2 if e2 else e1
        r=(fin.get('runs') or [{}])[-1]
        rows.append((name, prop, 'caught' if e1.get('caught') else 'missed', ('caught' if e2.get('caught') else 'MISSED') if e2 else '', f"{r.get('signature')} after {r.get('cases')} cases" if fin.get('caught') else '', (meta.get('what_breaks') or '')[:150], (meta.get('needs_to_manifest') or '')[:140]))
json.dump(rows, open(f'/tmp/seeded_rows_{tag}.json','w'))
for r in rows: print(*r[:5])
